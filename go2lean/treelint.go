package main

// treelint: a static obligation about z/btree.go (C10 / C16).
//
// A `node` is a slice into the tree's backing buffer.  Every call that may allocate a page
// (Tree.newNode and whatever transitively reaches Buffer.AllocateOffset / Allocate / Grow)
// may move that buffer (Calloc + copy, or mremap of the file), after which every `node` value
// obtained earlier is stale: writes through it are lost, reads through it see the old buffer
// (harmless while the old buffer stays readable, a fault when it was unmapped).
//
// For every function of btree.go the lint walks the statements in order, tracks which
// variables of type `node` are fresh (assigned after the last moving call) and reports each
// use of a stale one, classified as write or read:
//
//	def staleNodeWrites : List String     -- must be [] (theorem in RV/Props/C10.lean)
//	def staleNodeReads  : List String     -- only the sites of the known finding (RV/Props/C16.lean)
//
// The analysis is flow-sensitive over straight-line code; `if` branches are merged
// conservatively (stale in either branch = stale), loop bodies are walked twice.

import (
	"fmt"
	"go/ast"
	"go/token"
	"go/types"
	"path/filepath"
	"sort"
	"strings"
)

func init() { extras["TreeLint"] = treeLint }

type tlState map[types.Object]string // node variable -> "" (fresh) or the call that made it stale

type treeLinter struct {
	pi     *pkgInfo
	moving map[string]bool // "Tree.set", "Tree.newNode", ...
	writes map[string]bool
	reads  map[string]bool
	fn     string
}

func treeLint(load func(string) *pkgInfo) (string, error) {
	pi := load("z")
	var funcs []*ast.FuncDecl
	for _, f := range pi.files {
		if filepath.Base(pi.fset.Position(f.Pos()).Filename) != "btree.go" {
			continue
		}
		for _, d := range f.Decls {
			if fd, ok := d.(*ast.FuncDecl); ok && fd.Body != nil {
				funcs = append(funcs, fd)
			}
		}
	}
	if len(funcs) == 0 {
		return "", fmt.Errorf("z/btree.go: no functions found")
	}
	tl := &treeLinter{pi: pi, moving: map[string]bool{}, writes: map[string]bool{}, reads: map[string]bool{}}
	// call graph: which functions of btree.go may move the buffer
	name := func(fd *ast.FuncDecl) string {
		if fd.Recv != nil && len(fd.Recv.List) == 1 {
			t := fd.Recv.List[0].Type
			if s, ok := t.(*ast.StarExpr); ok {
				t = s.X
			}
			if id, ok := t.(*ast.Ident); ok {
				return id.Name + "." + fd.Name.Name
			}
		}
		return fd.Name.Name
	}
	for changed := true; changed; {
		changed = false
		for _, fd := range funcs {
			n := name(fd)
			if tl.moving[n] {
				continue
			}
			ast.Inspect(fd.Body, func(x ast.Node) bool {
				if c, ok := x.(*ast.CallExpr); ok && tl.movingCall(c) != "" {
					tl.moving[n] = true
					changed = true
				}
				return !tl.moving[n]
			})
		}
	}
	if !tl.moving["Tree.newNode"] {
		return "", fmt.Errorf("Tree.newNode is not recognised as allocating (Buffer.AllocateOffset call not found)")
	}
	for _, fd := range funcs {
		tl.fn = name(fd)
		st := tlState{}
		tl.declare(st, fd.Recv)
		tl.declare(st, fd.Type.Params)
		tl.block(fd.Body.List, st)
		// closures are analysed as functions of their own
		ast.Inspect(fd.Body, func(x ast.Node) bool {
			if fl, ok := x.(*ast.FuncLit); ok {
				save := tl.fn
				tl.fn = save + " (closure)"
				st2 := tlState{}
				tl.declare(st2, fl.Type.Params)
				tl.block(fl.Body.List, st2)
				tl.fn = save
			}
			return true
		})
	}
	var b strings.Builder
	mv := []string{}
	for k := range tl.moving {
		mv = append(mv, k)
	}
	sort.Strings(mv)
	fmt.Fprintf(&b, "/-- functions of z/btree.go that may move the backing buffer (call graph from Buffer.AllocateOffset / Allocate / Grow) -/\ndef movingFunctions : List String := %s\n\n", leanStrList(mv))
	fmt.Fprintf(&b, "/-- writes through a `node` obtained before a call that may move the buffer (lost updates) -/\ndef staleNodeWrites : List String := %s\n\n", leanStrList(keys(tl.writes)))
	fmt.Fprintf(&b, "/-- reads through a `node` obtained before a call that may move the buffer -/\ndef staleNodeReads : List String := %s\n", leanStrList(keys(tl.reads)))
	return b.String(), nil
}

func keys(m map[string]bool) []string {
	out := []string{}
	for k := range m {
		out = append(out, k)
	}
	sort.Strings(out)
	return out
}

func leanStrList(xs []string) string {
	q := make([]string, len(xs))
	for i, x := range xs {
		q[i] = fmt.Sprintf("%q", x)
	}
	return "[" + strings.Join(q, ", ") + "]"
}

// movingCall returns the name of the callee if the call may move the buffer.
func (tl *treeLinter) movingCall(c *ast.CallExpr) string {
	sel, ok := c.Fun.(*ast.SelectorExpr)
	if !ok {
		return ""
	}
	switch sel.Sel.Name {
	case "AllocateOffset", "Allocate", "Grow":
		return "Buffer." + sel.Sel.Name
	}
	// a method of *Tree that is known to move
	if tv, ok := tl.pi.info.Types[sel.X]; ok && tv.Type != nil {
		t := tv.Type
		if p, ok := t.(*types.Pointer); ok {
			t = p.Elem()
		}
		if n, ok := t.(*types.Named); ok && n.Obj().Name() == "Tree" && tl.moving["Tree."+sel.Sel.Name] {
			return sel.Sel.Name
		}
	}
	return ""
}

func (tl *treeLinter) isNodeVar(id *ast.Ident) types.Object {
	obj := tl.pi.info.Uses[id]
	if obj == nil {
		obj = tl.pi.info.Defs[id]
	}
	v, ok := obj.(*types.Var)
	if !ok || v == nil {
		return nil
	}
	if n, ok := v.Type().(*types.Named); ok && n.Obj().Name() == "node" {
		return obj
	}
	return nil
}

func (tl *treeLinter) report(obj types.Object, st tlState, write bool) {
	why, stale := st[obj]
	if !stale || why == "" {
		return
	}
	if write {
		tl.writes[fmt.Sprintf("%s: write through %s after %s", tl.fn, obj.Name(), why)] = true
	} else {
		tl.reads[fmt.Sprintf("%s: read through %s after %s", tl.fn, obj.Name(), why)] = true
	}
}

// baseNodeVar: x, x[..], x[a:b] -> x
func (tl *treeLinter) baseNodeVar(e ast.Expr) types.Object {
	for {
		switch x := e.(type) {
		case *ast.Ident:
			return tl.isNodeVar(x)
		case *ast.IndexExpr:
			e = x.X
		case *ast.SliceExpr:
			e = x.X
		case *ast.ParenExpr:
			e = x.X
		default:
			return nil
		}
	}
}

var nodeWriters = map[string]bool{"setAt": true, "setNumKeys": true, "setBit": true, "set": true, "moveRight": true, "compact": true}

// uses reports the stale uses inside e (function literals are skipped: analysed separately).
func (tl *treeLinter) uses(e ast.Node, st tlState) {
	if e == nil {
		return
	}
	written := map[*ast.Ident]bool{}
	ast.Inspect(e, func(x ast.Node) bool {
		switch c := x.(type) {
		case *ast.FuncLit:
			return false
		case *ast.CallExpr:
			if sel, ok := c.Fun.(*ast.SelectorExpr); ok && nodeWriters[sel.Sel.Name] {
				if id, ok := sel.X.(*ast.Ident); ok {
					if obj := tl.isNodeVar(id); obj != nil {
						tl.report(obj, st, true)
						written[id] = true
					}
				}
			}
			if id, ok := c.Fun.(*ast.Ident); ok && (id.Name == "zeroOut" || id.Name == "copy") && len(c.Args) > 0 {
				if obj := tl.baseNodeVar(c.Args[0]); obj != nil {
					tl.report(obj, st, true)
					ast.Inspect(c.Args[0], func(y ast.Node) bool {
						if i2, ok := y.(*ast.Ident); ok && tl.isNodeVar(i2) == obj {
							written[i2] = true
						}
						return true
					})
				}
			}
		case *ast.Ident:
			if written[c] {
				return true
			}
			if obj := tl.isNodeVar(c); obj != nil && tl.pi.info.Uses[c] != nil {
				tl.report(obj, st, false)
			}
		}
		return true
	})
}

func (tl *treeLinter) moveIn(e ast.Node) string {
	why := ""
	if e == nil {
		return ""
	}
	ast.Inspect(e, func(x ast.Node) bool {
		if _, ok := x.(*ast.FuncLit); ok {
			return false
		}
		if c, ok := x.(*ast.CallExpr); ok && why == "" {
			why = tl.movingCall(c)
		}
		return why == ""
	})
	return why
}

func (tl *treeLinter) allStale(st tlState, why string) {
	for k := range st {
		st[k] = why
	}
}

func copyState(st tlState) tlState {
	c := tlState{}
	for k, v := range st {
		c[k] = v
	}
	return c
}

func mergeState(dst, a, b tlState) {
	for k := range dst {
		delete(dst, k)
	}
	for k, v := range a {
		dst[k] = v
	}
	for k, v := range b {
		if cur, ok := dst[k]; !ok || cur == "" {
			dst[k] = v
		}
	}
}

func (tl *treeLinter) declare(st tlState, fd *ast.FieldList) {
	if fd == nil {
		return
	}
	for _, f := range fd.List {
		for _, n := range f.Names {
			if obj := tl.isNodeVar(n); obj != nil {
				st[obj] = ""
			}
		}
	}
}

func (tl *treeLinter) block(stmts []ast.Stmt, st tlState) {
	for _, s := range stmts {
		tl.stmt(s, st)
	}
}

func (tl *treeLinter) stmt(s ast.Stmt, st tlState) {
	switch x := s.(type) {
	case nil:
	case *ast.AssignStmt:
		for _, r := range x.Rhs {
			tl.uses(r, st)
		}
		for _, l := range x.Lhs {
			if _, ok := l.(*ast.Ident); !ok {
				// x[i] = v : a write through x
				if obj := tl.baseNodeVar(l); obj != nil {
					tl.report(obj, st, true)
				} else {
					tl.uses(l, st)
				}
			}
		}
		if why := tl.moveIn(x); why != "" {
			tl.allStale(st, why)
		}
		for _, l := range x.Lhs {
			if id, ok := l.(*ast.Ident); ok {
				if obj := tl.isNodeVar(id); obj != nil {
					st[obj] = ""
				}
			}
		}
	case *ast.ExprStmt:
		tl.uses(x.X, st)
		if why := tl.moveIn(x.X); why != "" {
			tl.allStale(st, why)
		}
	case *ast.DeclStmt:
		tl.uses(x, st)
		if gd, ok := x.Decl.(*ast.GenDecl); ok && gd.Tok == token.VAR {
			for _, sp := range gd.Specs {
				if vs, ok := sp.(*ast.ValueSpec); ok {
					for _, n := range vs.Names {
						if obj := tl.isNodeVar(n); obj != nil {
							st[obj] = ""
						}
					}
				}
			}
		}
	case *ast.ReturnStmt:
		for _, r := range x.Results {
			tl.uses(r, st)
		}
	case *ast.IncDecStmt:
		tl.uses(x.X, st)
	case *ast.BlockStmt:
		tl.block(x.List, st)
	case *ast.IfStmt:
		tl.stmt(x.Init, st)
		tl.uses(x.Cond, st)
		if why := tl.moveIn(x.Cond); why != "" {
			tl.allStale(st, why)
		}
		a := copyState(st)
		tl.block(x.Body.List, a)
		b := copyState(st)
		if x.Else != nil {
			tl.stmt(x.Else, b)
		}
		mergeState(st, a, b)
	case *ast.ForStmt:
		tl.stmt(x.Init, st)
		for pass := 0; pass < 2; pass++ {
			tl.uses(x.Cond, st)
			tl.block(x.Body.List, st)
			tl.stmt(x.Post, st)
		}
	case *ast.RangeStmt:
		tl.uses(x.X, st)
		for pass := 0; pass < 2; pass++ {
			tl.block(x.Body.List, st)
		}
	case *ast.SwitchStmt:
		tl.stmt(x.Init, st)
		tl.uses(x.Tag, st)
		for _, c := range x.Body.List {
			if cc, ok := c.(*ast.CaseClause); ok {
				tl.block(cc.Body, st)
			}
		}
	default:
		tl.uses(s, st)
		if why := tl.moveIn(s); why != "" {
			tl.allStale(st, why)
		}
	}
}
