"""Per-property configuration, loaded from checklib/props/Cxx.json.

Each file:
{
 "gen": ["Sketch", ...],              # RV/Gen modules whose kernels are obligations of this property
 "streams": [["sketch", "sketch", 1, 20], ...],   # [harness stream, driver component or null, quick scale, thorough scale]
 "thorough_seeds": 4,
 "rule": "how cases are generated and what makes one non-trivial",
 "trusted": ["..."],                  # property-specific trusted-base entries
 "assumptions": ["..."]
}
"""
import glob, json, os

_d = os.path.join(os.path.dirname(os.path.abspath(__file__)), "props")
PROPS = {}
for _f in sorted(glob.glob(os.path.join(_d, "C*.json"))):
    _c = json.load(open(_f))
    _c.setdefault("gen", [])
    _c.setdefault("streams", [])
    _c.setdefault("trusted", [])
    _c.setdefault("assumptions", [])
    PROPS[os.path.basename(_f)[:-5]] = _c
FINDING_STREAMS = {}
