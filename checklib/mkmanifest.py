#!/usr/bin/env python3
"""Regenerates /verif/MANIFEST.json from checklib/props/*.json (field "manifest") and
properties.jsonl.  A property without a props file or without "claimed": true is listed
under not_applicable with the reason given in its props file (or 'not yet built')."""
import json, os, subprocess, sys
ROOT = os.path.dirname(os.path.dirname(os.path.abspath(__file__)))
sys.path.insert(0, os.path.join(ROOT, "checklib"))
from props import PROPS
props = [json.loads(l) for l in open(os.path.join(ROOT, "properties.jsonl"))]
hooks = subprocess.run(["git", "-C", "/repo", "log", "--format=%H %s"], capture_output=True, text=True).stdout.splitlines()
hook_commits = [l.split()[0] for l in hooks if "verif hook" in l]
checks, na = [], []
for p in props:
    pid = p["id"]
    c = PROPS.get(pid)
    if not c or not c.get("claimed"):
        na.append({"property_id": pid, "reason": (c or {}).get("na_reason", "check still under construction (model/proofs not yet complete enough to claim)")})
        continue
    m = c["manifest"]
    checks.append({
        "property_id": pid,
        "quick_cmd": "./check %s --tier quick" % pid,
        "thorough_cmd": "./check %s --tier thorough" % pid,
        "evidence_file": "/verif/evidence/%s.json" % pid,
        "replay_cmd_template": "./check replay {path}",
        "engine": "lean-proof+trace-validation",
        "level_claimed": {"category": "proof", "text": m["text"], "design_ref": "DESIGN.md section 5, " + pid},
        "level_note": m["note"],
        "technique": m.get("technique", "Lean 4 theorems over an executable model; kernels regenerated from source by go2lean; hand-written control flow tied by trace validation against the real code"),
    })
man = {
    "version": 1,
    "setup_cmd": "./setup.sh",
    "hooks": {"guard": "verif",
              "enable": "go test -c -tags verif in /verif/harness (go.mod: replace github.com/dgraph-io/ristretto/v2 => /repo); hook files are /repo/verif_*_on.go, /repo/z/verif_*_on.go and the call sites of verifPoint",
              "baseline_off_cmd": "cd /repo && go test -vet=off -count=1 -timeout 25m ./...",
              "source_commits": hook_commits, "add_only": True},
    "engines": [{"name": "lean-proof+trace-validation", "path": "/verif/check",
                 "serves_properties": [c["property_id"] for c in checks],
                 "kind_free_text": "Lean 4 proofs about an executable model (lean/RV); go2lean regenerates the integer/decision kernels from /repo on every run; a Go harness (-tags verif) runs the real code and the compiled Lean driver validates its traces against the model; direct Go monitors search for concrete failing inputs when an obligation breaks"}],
    "checks": checks,
    "not_applicable": na,
    "notes": "See DESIGN.md. known_findings.json lists genuine defects (open or fixed).",
}
json.dump(man, open(os.path.join(ROOT, "MANIFEST.json"), "w"), indent=1)
print("claimed:", [c["property_id"] for c in checks])
