#!/usr/bin/env python3
"""Atomically edits checklib/props/Cxx.json (several people may register things at the same time).
usage: props_add.py Cxx [--gen Mod]... [--extra PropsModule]... [--stream name component quick_scale thorough_scale]...
Idempotent; takes /verif/.work/props.lock."""
import fcntl, json, os, sys
a = sys.argv[1:]
pid = a.pop(0)
path = "/verif/checklib/props/%s.json" % pid
os.makedirs("/verif/.work", exist_ok=True)
with open("/verif/.work/props.lock", "w") as lf:
    fcntl.flock(lf, fcntl.LOCK_EX)
    d = json.load(open(path))
    while a:
        k = a.pop(0)
        if k == "--gen":
            m = a.pop(0)
            if m not in d["gen"]:
                d["gen"].append(m)
        elif k == "--extra":
            m = a.pop(0)
            d.setdefault("extra_props", [])
            if m not in d["extra_props"]:
                d["extra_props"].append(m)
        elif k == "--stream":
            s = [a.pop(0), a.pop(0), int(a.pop(0)), int(a.pop(0))]
            hit = [x for x in d["streams"] if x[0] == s[0]]
            if not hit:
                d["streams"].append(s)
            elif s[1] not in (hit[0][1] or "").split("+"):   # second validator for an existing stream
                hit[0][1] = (hit[0][1] + "+" if hit[0][1] else "") + s[1]
        else:
            sys.exit("unknown option " + k)
    tmp = path + ".tmp"
    json.dump(d, open(tmp, "w"), indent=1)
    os.replace(tmp, path)
print("ok", pid, "gen=", d["gen"], "extra_props=", d.get("extra_props"), "streams=", [s[0] for s in d["streams"]])
