#!/usr/bin/env python3
"""Confirms a seeded change delivered by an independent sub-agent in a scratch worktree of /repo:
the existing suite passes with the change, the demonstration fails with it and passes without it.
Confirmed changes are stored under /verif/seeded/<id>/.   usage: seed_confirm.py <seedwork_dir> <id>"""
import json, os, shutil, subprocess, sys
src, sid = sys.argv[1], sys.argv[2]
env = dict(os.environ, GOFLAGS="-mod=mod", GOPROXY="off", GOSUMDB="off", GOTOOLCHAIN="local",
           PATH="/root/go/pkg/mod/golang.org/toolchain@v0.0.1-go1.25.0.linux-amd64/bin:" + os.environ["PATH"])
meta = json.load(open(os.path.join(src, "meta.json")))
wt = "/tmp/confirm_" + sid
subprocess.run(["git", "-C", "/repo", "worktree", "remove", "--force", wt], capture_output=True)
subprocess.run(["git", "-C", "/repo", "worktree", "add", "-q", wt, "HEAD"], check=True)
def sh(cmd, timeout=1500):
    p = subprocess.run(cmd, shell=True, cwd=wt, env=env, capture_output=True, text=True, timeout=timeout)
    return p.returncode, (p.stdout + p.stderr)[-3000:]
res = {}
try:
    rc, o = sh("git apply %s" % os.path.join(src, "patch.diff"))
    res["patch_applies"] = rc == 0
    rc, o = sh("go build ./...")
    res["builds"] = rc == 0
    # the suite has timing-sensitive tests: on a loaded machine retry (up to 3 runs; a pass counts)
    for attempt in range(3):
        rc, o = sh("go test -vet=off -count=1 ./... 2>&1 | tail -15")
        res["suite_passes_with_change"] = ("FAIL" not in o) and rc == 0
        res["suite_runs"] = attempt + 1
        if res["suite_passes_with_change"]:
            break
    res["suite_tail"] = o[-600:]
    demo = meta["demo"]
    files = demo["file"] if isinstance(demo["file"], list) else [demo["file"]]
    ddir = (demo.get("dir", ".") or ".").split()[0].rstrip(",;")
    if not os.path.isdir(os.path.join(wt, ddir)):
        ddir = "."
    for f in files:
        shutil.copy(os.path.join(src, os.path.basename(f)), os.path.join(wt, ddir, os.path.basename(f)))
    rc, o = sh(demo["run"])
    res["demo_fails_with_change"] = rc != 0
    res["demo_with_change_tail"] = o[-500:]
    sh("git checkout -- .")
    rc, o = sh(demo["run"])
    res["demo_passes_without_change"] = rc == 0
    ok = all(res.get(k) for k in ["patch_applies", "builds", "suite_passes_with_change", "demo_fails_with_change", "demo_passes_without_change"])
    res["confirmed"] = ok
    if ok:
        dst = os.path.join("/verif/seeded", sid)
        os.makedirs(dst, exist_ok=True)
        shutil.copy(os.path.join(src, "patch.diff"), dst)
        for f in files:
            shutil.copy(os.path.join(src, os.path.basename(f)), dst)
        meta["confirmed_by_coordinator"] = {k: res[k] for k in res if not k.endswith("_tail")}
        meta["what_was_run"] = ["git apply patch.diff in a scratch worktree of /repo HEAD", "go build ./...", "go test -vet=off -count=1 ./...  (existing suite, with the change)", demo["run"] + "  (with the change: fails; after git checkout -- .: passes)"]
        json.dump(meta, open(os.path.join(dst, "meta.json"), "w"), indent=1)
finally:
    subprocess.run(["git", "-C", "/repo", "worktree", "remove", "--force", wt], capture_output=True)
print(sid, json.dumps({k: v for k, v in res.items() if not k.endswith("_tail")}))
if not res.get("confirmed"):
    print(res.get("suite_tail", ""), res.get("demo_with_change_tail", ""))
