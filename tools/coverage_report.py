#!/usr/bin/env python3
"""Summarise /tmp/cov/*.out (written by tools/coverage.sh): per-file statement coverage and the
uncovered line ranges of the modelled files."""
import glob, re, collections
cov = collections.defaultdict(int); n = {}
for f in glob.glob('/tmp/cov/*.out'):
    for l in open(f):
        if l.startswith('mode:'): continue
        m = re.match(r'(\S+):(\d+)\.(\d+),(\d+)\.(\d+) (\d+) (\d+)', l)
        k = (m.group(1), int(m.group(2)), int(m.group(4))); n[k] = int(m.group(6)); cov[k] += int(m.group(7))
byf = collections.defaultdict(lambda: [0, 0]); unc = collections.defaultdict(list)
for k, c in cov.items():
    f = k[0].replace('github.com/dgraph-io/ristretto/v2/', '')
    byf[f][1] += n[k]
    if c > 0: byf[f][0] += n[k]
    else: unc[f].append((k[1], k[2]))
for f in sorted(byf):
    a, b = byf[f]; print("%-28s %4d/%4d %3d%%" % (f, a, b, 100 * a // max(b, 1)))
print()
for f in ['cache.go', 'store.go', 'ttl.go', 'policy.go', 'sketch.go', 'ring.go', 'z/bbloom.go', 'z/btree.go', 'z/buffer.go', 'z/allocator.go', 'z/simd/search_amd64.go']:
    print(f, sorted(unc[f]))
