#!/bin/sh
# usage: seed_batch.sh /tmp/seedout/sN   -- confirm every delivered change of one seed agent (in parallel)
for d in "$1"/C*; do
  [ -f "$d/meta.json" ] || continue
  id=$(basename "$d")
  python3 /verif/tools/seed_confirm.py "$d" "$id" > "/tmp/coord/confirm_$id.log" 2>&1 &
done
wait
for d in "$1"/C*; do id=$(basename "$d"); head -1 "/tmp/coord/confirm_$id.log"; done
