#!/bin/bash
# usage: tools/mutcache.sh FILE 'sed-expr'   -- applies the mutation to /repo/FILE under the repo lock,
# runs the cache streams (oracles + model validation), restores FILE.  Development aid only.
FILE=$1; EXPR=$2
export GOFLAGS=-mod=mod GOPROXY=off GOSUMDB=off GOTOOLCHAIN=local PATH=/root/go/pkg/mod/golang.org/toolchain@v0.0.1-go1.25.0.linux-amd64/bin:$PATH
exec 9>/verif/.work/repo.lock; flock 9
cd /repo && sed -i "$EXPR" $FILE && git diff --stat | tail -1
if ! go build ./... 2>/tmp/mut_build.txt; then echo "DOES NOT COMPILE"; head -5 /tmp/mut_build.txt; git checkout -- $FILE; exit 1; fi
(cd /verif/go2lean && /verif/.bin/go2lean -repo /repo -out /tmp/mut_gen >/tmp/mut_g2l.txt 2>&1; grep -c UNTRANS /tmp/mut_g2l.txt | sed 's/^/untranslatable kernels: /')
cd /verif/harness && go test -c -tags verif -o /tmp/mut_h.test . || { echo HARNESS-BUILD-FAILED; git -C /repo checkout -- $FILE; exit 1; }
for m in cache cache_single cache_collide; do for sd in 1 2; do
  VERIF_STREAM=$m VERIF_SEED=$sd VERIF_SCALE=2 VERIF_TRACE=/tmp/mut.trace VERIF_REPORT=/tmp/mut.json timeout 300 /tmp/mut_h.test -test.run '^TestStream$' >/tmp/mut_out.txt 2>&1 || tail -3 /tmp/mut_out.txt
  echo "$m/$sd driver: $(/verif/lean/.lake/build/bin/rvcache /tmp/mut.trace | cut -c1-160)"
  python3 -c "
import json,collections
try:
  d=json.load(open('/tmp/mut.json')); print('   oracle:', dict(collections.Counter((f['property'],f.get('sig')) for f in d['failures'])), [f['what'][:90] for f in d['failures'][:2]])
except Exception as e: print('   no report', e)"
done; done
git -C /repo checkout -- $FILE; rm -rf /tmp/mut_gen
