#!/usr/bin/env python3
"""Prints the markdown table of behaviour-preserving rewrites (/verif/harmless) and which checks
stayed silent / raised a `no-failing-input-found` alarm on them."""
import glob, json, os, re
DESC = {}
rows = []
for d in sorted(glob.glob("/verif/harmless/*/")):
    hid = os.path.basename(d.rstrip("/"))
    why = open(d + "why.md").read().strip().split("\n")[0] if os.path.exists(d + "why.md") else ""
    why = re.sub(r"\s+", " ", why).replace("|", "/")
    if len(why) > 230:
        why = why[:227] + "…"
    files = " ".join(sorted(set(re.findall(r"^\+\+\+ b/(\S+)", open(d + "patch.diff").read(), re.M))))
    det = json.load(open(d + "detection.json")) if os.path.exists(d + "detection.json") else {}
    ok = [p for p, r in sorted(det.items()) if not r.get("caught") and r.get("exit") == 0]
    al = [p for p, r in sorted(det.items()) if r.get("caught")]
    concrete = [p for p, r in sorted(det.items()) if r.get("with_failing_input")]
    res = []
    if ok:
        res.append("silent: " + " ".join(ok))
    if al:
        res.append("**alarm (no-failing-input-found)**: " + " ".join(al))
    if concrete:
        res.append("**ALARM WITH INPUT (a defect of the check)**: " + " ".join(concrete))
    rows.append("| %s | %s | %s | %s |" % (hid, files, why, "; ".join(res) or "not run"))
print("| id | file(s) | rewrite | `./check` with the rewrite applied |\n|---|---|---|---|")
print("\n".join(rows))
