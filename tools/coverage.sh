#!/bin/bash
# Statement coverage of /repo by all harness streams at their quick scales (what the correspondence
# check actually executes).  Scratch output under /tmp/cov (removed by the caller); run it as
#   flock -s /verif/.work/repo.lock tools/coverage.sh && python3 tools/coverage_report.py
export GOFLAGS=-mod=mod GOPROXY=off GOSUMDB=off GOTOOLCHAIN=local PATH=/root/go/pkg/mod/golang.org/toolchain@v0.0.1-go1.25.0.linux-amd64/bin:$PATH
set -e
cd /verif/harness
go test -c -tags verif -cover -coverpkg=github.com/dgraph-io/ristretto/v2,github.com/dgraph-io/ristretto/v2/z,github.com/dgraph-io/ristretto/v2/z/simd -o /tmp/cover.test . 
rm -rf /tmp/cov; mkdir -p /tmp/cov
streams=$(python3 - <<'P'
import json,glob
s={}
for f in glob.glob('/verif/checklib/props/C*.json'):
    for st in json.load(open(f)).get('streams',[]): s[st[0]]=st[2]
print(" ".join("%s:%s"%(k,v) for k,v in s.items()))
P
)
for ss in $streams; do st=${ss%%:*}; sc=${ss##*:}; mkdir -p /tmp/cov/w_$st
  VERIF_STREAM=$st VERIF_SEED=1 VERIF_SCALE=$sc VERIF_TRACE=/dev/null VERIF_REPORT=/tmp/cov/r_$st.json VERIF_WORK=/tmp/cov/w_$st GOMAXPROCS=8 \
    /tmp/cover.test -test.run '^TestStream$' -test.timeout 600s -test.coverprofile=/tmp/cov/$st.out >/dev/null 2>&1 || echo "stream $st rc=$?"
done
