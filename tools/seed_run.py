#!/usr/bin/env python3
"""Runs checks against a seeded change: applies /verif/seeded/<id>/patch.diff to /repo under the
exclusive repo lock, runs ./check for the given properties, restores the touched files, and records
the outcome in /verif/seeded/<id>/detection.json.   usage: seed_run.py <id> Cxx [Cyy ...] [--tier T] [--root DIR]"""
import fcntl, json, os, re, subprocess, sys, time
args = sys.argv[1:]
tier = "quick"
if "--tier" in args:
    i = args.index("--tier"); tier = args[i + 1]; del args[i:i + 2]
root = "/verif/seeded"
if "--root" in args:   # e.g. /verif/harmless: behaviour-preserving rewrites (no check should alarm)
    i = args.index("--root"); root = args[i + 1]; del args[i:i + 2]
sid, props = args[0], args[1:]
d = os.path.join(root, sid)
patch = os.path.join(d, "patch.diff")
files = re.findall(r"^\+\+\+ b/(\S+)", open(patch).read(), re.M)
os.makedirs("/verif/.work", exist_ok=True)
out = {}
with open("/verif/.work/repo.lock", "w") as lf:
    fcntl.flock(lf, fcntl.LOCK_EX)
    try:
        st = subprocess.run(["git", "-C", "/repo", "status", "--porcelain", "--untracked-files=no"], capture_output=True, text=True).stdout
        if st.strip():
            print("refusing: /repo has uncommitted tracked changes:\n" + st); sys.exit(2)
        subprocess.run(["git", "-C", "/repo", "apply", patch], check=True)
        for p in props:
            t0 = time.time()
            r = subprocess.run(["./check", p, "--tier", tier], cwd="/verif", capture_output=True, text=True,
                               env=dict(os.environ, VERIF_HAVE_REPO_LOCK="1"))
            lines = [l for l in r.stdout.splitlines() if l.startswith(("VIOLATION", "OK ", "KNOWN-FINDING", "  what", "  broken"))]
            out[p] = {"exit": r.returncode, "lines": lines, "wall_s": round(time.time() - t0, 1),
                      "caught": any(l.startswith("VIOLATION") for l in lines),
                      "with_failing_input": any(l.startswith("VIOLATION") and "no-failing-input-found" not in l for l in lines)}
            print(sid, p, out[p]["exit"], *lines[-4:], sep="\n   ")
    finally:
        subprocess.run(["git", "-C", "/repo", "checkout", "--"] + files)
        fcntl.flock(lf, fcntl.LOCK_UN)
prev = {}
pth = os.path.join(d, "detection.json")
if os.path.exists(pth):
    prev = json.load(open(pth))
prev.update(out)
json.dump(prev, open(pth, "w"), indent=1)
