#!/usr/bin/env python3
"""Generates lean/RV/Proofs/CacheCases.lean: case-analysis principles for `clientStep` and
`applierStep` (one hypothesis per program counter, giving the pc equation and the step
function applied).  Run from /verif/lean."""
client = [
 # (case name, pc pattern, binders, step application, kind)  kind: plain = needNone ch (some (f)), opt = needNone ch (f), optch = f ... ch
 ("setStart", ".setStart h c v cost ttl", "(h : Hash) (c : Conf) (v : Val) (cost ttl : Int)", "stSetStart s t h c v cost ttl", "plain"),
 ("setUpd", ".setUpd i", "(i : Item)", "stSetUpd cfg s t i", "plain"),
 ("setExit", ".setExit i prev", "(i : Item) (prev : Val)", "stSetExit s t i prev", "plain"),
 ("setSend", ".setSend i", "(i : Item)", "stSetSend cfg s t i", "plain"),
 ("setRetTrue", ".setRetTrue i", "(i : Item)", "stSetRetTrue s t i", "plain"),
 ("setRetDrop", ".setRetDrop i", "(i : Item)", "stSetRetDrop cfg s t i", "plain"),
 ("delStart", ".delStart h c", "(h : Hash) (c : Conf)", "stDelStart s t h c", "plain"),
 ("delExit", ".delExit h c prev", "(h : Hash) (c : Conf) (prev : Val)", "stDelExit s t h c prev", "plain"),
 ("delSend", ".delSend h c", "(h : Hash) (c : Conf)", "stDelSend cfg s t h c", "plain"),
 ("delSent", ".delSent h", "(h : Hash)", "stDelSent s t h", "plain"),
 ("waitStart", ".waitStart", "", "stWaitStart s t", "plain"),
 ("waitSend", ".waitSend", "", "stWaitSend cfg s t", "plain"),
 ("waitRecv", ".waitRecv id", "(id : Nat)", "stWaitRecv s t id", "opt"),
 ("waitDone", ".waitDone", "", "stWaitDone s t", "plain"),
 ("getStart", ".getStart h c", "(h : Hash) (c : Conf)", "stGetStart cfg s t h c ch", "optch"),
 ("getRead", ".getRead h c", "(h : Hash) (c : Conf)", "stGetRead s t h c", "plain"),
 ("getCheck", ".getCheck h c e", "(h : Hash) (c : Conf) (e : Option Entry)", "stGetCheck s t h c e", "plain"),
 ("getMetric", ".getMetric h c r", "(h : Hash) (c : Conf) (r : Option Val)", "stGetMetric cfg s t h c r", "plain"),
 ("ttlRead", ".ttlRead h c", "(h : Hash) (c : Conf)", "stTtlRead s t h c", "plain"),
 ("ttlCheck", ".ttlCheck h c e", "(h : Hash) (c : Conf) (e : Option Entry)", "stTtlCheck s t h c e", "plain"),
 ("ttlExp", ".ttlExp h c", "(h : Hash) (c : Conf)", "stTtlExp s t h c", "plain"),
 ("ttlNow", ".ttlNow h c exp", "(h : Hash) (c : Conf) (exp : Time)", "stTtlNow s t h c exp", "plain"),
 ("ttlUntil", ".ttlUntil h c exp", "(h : Hash) (c : Conf) (exp : Time)", "stTtlUntil s t h c exp", "plain"),
 ("iterStart", ".iterStart n", "(n : Nat)", "stIterStart s t n", "plain"),
 ("iterShard", ".iterShard k n seen", "(k n : Nat) (seen : List Val)", "stIterShard s t k n seen ch", "optch"),
 ("clrStart", ".clrStart closing", "(closing : Bool)", "stClrStart s t closing", "plain"),
 ("clrDrain", ".clrDrain closing", "(closing : Bool)", "stClrDrain s t closing", "plain"),
 ("clrPolicy", ".clrPolicy closing", "(closing : Bool)", "stClrPolicy s t closing", "plain"),
 ("clrShard", ".clrShard closing k", "(closing : Bool) (k : Nat)", "stClrShard s t closing k ch", "optch"),
 ("clrEm", ".clrEm closing", "(closing : Bool)", "stClrEm s t closing", "plain"),
 ("clrMetrics", ".clrMetrics closing", "(closing : Bool)", "stClrMetrics cfg s t closing", "plain"),
 ("clrRestart", ".clrRestart closing", "(closing : Bool)", "stClrRestart s t closing", "plain"),
 ("clsFinish", ".clsFinish", "", "stClsFinish s t", "plain"),
 ("updMax", ".updMax m", "(m : Int)", "stUpdMax s t m", "plain"),
 ("readMax", ".readMax", "", "stReadMax s t", "plain"),
 ("readRem", ".readRem", "", "stReadRem s t", "plain"),
]
applier = [
 ("idle", ".idle", "", "apIdle s ch", "optch"),
 ("marker", ".marker id", "(id : Nat)", "apMarker s id", "plain"),
 ("item", ".item i", "(i : Item)", "apItem cfg s i", "plain"),
 ("costed", ".costed i", "(i : Item)", "apCosted cfg s i ch", "optch"),
 ("added", ".added i victims ok", "(i : Item) (victims : List (Hash × Int)) (ok : Bool)", "apAdded cfg s i victims ok", "plain"),
 ("victims", ".victims vs", "(vs : List (Hash × Int))", "apVictims s vs", "opt"),
 ("victimEvict", ".victimEvict h cost c v rest", "(h : Hash) (cost : Int) (c : Conf) (v : Val) (rest : List (Hash × Int))", "apVictimEvict s h cost c v rest", "plain"),
 ("tombPolicy", ".tombPolicy i", "(i : Item)", "apTombPolicy s i", "plain"),
 ("tombStore", ".tombStore v", "(v : Val)", "apTombStore s v", "plain"),
 ("tick", ".tick", "", "apTick s", "plain"),
 ("sweep", ".sweep now bs", "(now : Time) (bs : List (AMap Hash Conf))", "apSweep s now bs ch", "optch"),
 ("swKey", ".swKey now k c bs", "(now : Time) (k : Hash) (c : Conf) (bs : List (AMap Hash Conf))", "apSwKey s now k c bs", "plain"),
 ("swStoreDel", ".swStoreDel now k c expr v bs", "(now : Time) (k : Hash) (c : Conf) (expr : Time) (v : Val) (bs : List (AMap Hash Conf))", "apSwStoreDel cfg s now k c expr v bs", "plain"),
 ("swPolDel", ".swPolDel now k c expr cost v bs", "(now : Time) (k : Hash) (c : Conf) (expr : Time) (cost : Int) (v : Val) (bs : List (AMap Hash Conf))", "apSwPolDel s now k c cost v bs", "plain"),
]
def hyp(name, pat, binders, app, kind, pcexpr):
    b = (" " + binders) if binders else ""
    if kind == "plain":
        return "    (%s : ∀%s, %s = %s → ch = .none → motive (%s))" % (name, b if b else " (_ : Unit)", pcexpr, pat, app) if False else \
               ("    (%s : ∀%s (_ : %s = %s) (_ : ch = .none), motive (%s))" % (name, b, pcexpr, pat, app) if b else
                "    (%s : ∀ (_ : %s = %s) (_ : ch = .none), motive (%s))" % (name, pcexpr, pat, app))
    if kind == "opt":
        return "    (%s : ∀%s (_ : %s = %s) (_ : ch = .none) (_ : %s = some s'), motive s')" % (name, b, pcexpr, pat, app)
    return "    (%s : ∀%s (_ : %s = %s) (_ : %s = some s'), motive s')" % (name, b, pcexpr, pat, app)
out = ["import RV.Proofs.CacheBasic", "/-!", "GENERATED by tools/gen_cases.py — case analysis principles for `clientStep` / `applierStep`.", "-/",
       "set_option linter.unusedVariables false", "namespace RV.Cache", ""]
def principle(thm, fn, table, pcexpr, fnapp):
    out.append("theorem %s {cfg : Cfg} {s s' : State} %s{ch : Choice} {motive : State → Prop}" % (thm, "{t : Tid} " if "t" in fnapp.split() else ""))
    out.append("    (hs : %s = some s')" % fnapp)
    for (name, pat, binders, app, kind) in table:
        out.append(hyp(name, pat, binders, app, kind, pcexpr))
    out.append("    : motive s' := by")
    out.append("  unfold %s at hs" % fn)
    out.append("  split at hs")
    out.append("  all_goals first")
    out.append("    | (simp at hs; done)")
    for (name, pat, binders, app, kind) in table:
        import re as _re
        nargs = sum(len(g.split(":")[0].split()) for g in _re.findall(r"\(([^)]*)\)", binders))
        us = " ".join(["_"] * nargs)
        if kind == "plain":
            out.append("    | (obtain ⟨hch, hr⟩ := needNone_some hs; simp only [Option.some.injEq] at hr; subst hr; exact %s %s ‹_› hch)" % (name, us))
        elif kind == "opt":
            out.append("    | (obtain ⟨hch, hr⟩ := needNone_some hs; exact %s %s ‹_› hch hr)" % (name, us))
        else:
            out.append("    | (exact %s %s ‹_› hs)" % (name, us))
    out.append("")
principle("clientStep_cases", "clientStep", client, "s.cl t", "clientStep cfg s t ch")
principle("applierStep_cases", "applierStep", applier, "s.app", "applierStep cfg s ch")
out.append("end RV.Cache")
open("RV/Proofs/CacheCases.lean", "w").write("\n".join(out) + "\n")
