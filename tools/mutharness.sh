#!/bin/sh
# Development helper: run harness streams (direct oracles only) against a seeded change in a
# scratch worktree, without touching /repo.   usage: mutharness.sh <seed-id> <scale> <seeds> stream...
# prints, per stream and seed, the failures the oracles reported (property: what).
id=$1; scale=$2; seeds=$3; shift 3
export GOFLAGS=-mod=mod GOPROXY=off GOSUMDB=off GOTOOLCHAIN=local PATH=/root/go/pkg/mod/golang.org/toolchain@v0.0.1-go1.25.0.linux-amd64/bin:$PATH
wt=/tmp/mutwt/$id; h=/tmp/mutwt/${id}_h
git -C /repo worktree remove --force $wt 2>/dev/null; rm -rf $h
mkdir -p /tmp/mutwt; git -C /repo worktree add -q --detach $wt HEAD || exit 1
[ "$id" = clean ] || git -C $wt apply /verif/seeded/$id/patch.diff || exit 1
cp /repo/z/verif_node_on.go $wt/z/ 2>/dev/null
cp -r /verif/harness $h; sed -i "s#=> /repo#=> $wt#" $h/go.mod; cp $wt/go.sum $h/
(cd $h && go test -c -tags verif -o $h/h.test . ) || { echo BUILD FAILED; exit 1; }
for st in "$@"; do for sd in $(seq 1 $seeds); do
  VERIF_STREAM=$st VERIF_SEED=$sd VERIF_SCALE=$scale VERIF_TRACE=/dev/null VERIF_REPORT=$h/r.json VERIF_WORK=$h timeout 600 $h/h.test -test.run '^TestStream$' >/dev/null 2>&1
  echo "== $st seed=$sd: $(jq -r '[.cases, (.failures|length)]|@tsv' $h/r.json 2>/dev/null)"
  jq -r ".failures[] | select(.property==\"${MUTPROP:-}\" or \"${MUTPROP:-}\"==\"\") | \"   \\(.property): \\(.what[:260])\"" $h/r.json 2>/dev/null | head -${MUTN:-3}
done; done
git -C /repo worktree remove --force $wt; rm -rf $h
