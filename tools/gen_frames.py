#!/usr/bin/env python3
"""Generates lean/RV/Proofs/CacheFrames.lean: for every step function of the Cache model and
every state field, the lemma "this step leaves the field unchanged" -- keeping exactly those
that Lean accepts (candidates that fail are facts that are false, i.e. the step writes the field).
Run from /verif/lean:  python3 ../tools/gen_frames.py
The output file is committed; re-run after changing RV/Model/Cache.lean."""
import re, subprocess, sys, os
fields = ["store", "em", "pol", "met", "buf", "sendq", "closedMarkers", "nextMarker", "app", "clock", "closed", "ringPending", "log"]
# (name, binder text, application text, returns Option?, has tid?)
steps = [
 ("stSetStart", "(s : State) (t : Tid) (h : Hash) (c : Conf) (v : Val) (cost ttl : Int)", "stSetStart s t h c v cost ttl", False, True),
 ("stSetUpd", "(cfg : Cfg) (s : State) (t : Tid) (i : Item)", "stSetUpd cfg s t i", False, True),
 ("stSetExit", "(s : State) (t : Tid) (i : Item) (prev : Val)", "stSetExit s t i prev", False, True),
 ("stSetSend", "(cfg : Cfg) (s : State) (t : Tid) (i : Item)", "stSetSend cfg s t i", False, True),
 ("stSetRetTrue", "(s : State) (t : Tid) (i : Item)", "stSetRetTrue s t i", False, True),
 ("stSetRetDrop", "(cfg : Cfg) (s : State) (t : Tid) (i : Item)", "stSetRetDrop cfg s t i", False, True),
 ("stDelStart", "(s : State) (t : Tid) (h : Hash) (c : Conf)", "stDelStart s t h c", False, True),
 ("stDelExit", "(s : State) (t : Tid) (h : Hash) (c : Conf) (prev : Val)", "stDelExit s t h c prev", False, True),
 ("stDelSend", "(cfg : Cfg) (s : State) (t : Tid) (h : Hash) (c : Conf)", "stDelSend cfg s t h c", False, True),
 ("stDelSent", "(s : State) (t : Tid) (h : Hash)", "stDelSent s t h", False, True),
 ("stWaitStart", "(s : State) (t : Tid)", "stWaitStart s t", False, True),
 ("stWaitSend", "(cfg : Cfg) (s : State) (t : Tid)", "stWaitSend cfg s t", False, True),
 ("stWaitRecv", "(s : State) (t : Tid) (id : Nat)", "stWaitRecv s t id", True, True),
 ("stWaitDone", "(s : State) (t : Tid)", "stWaitDone s t", False, True),
 ("stGetStart", "(cfg : Cfg) (s : State) (t : Tid) (h : Hash) (c : Conf) (ch : Choice)", "stGetStart cfg s t h c ch", True, True),
 ("stGetRead", "(s : State) (t : Tid) (h : Hash) (c : Conf)", "stGetRead s t h c", False, True),
 ("stGetCheck", "(s : State) (t : Tid) (h : Hash) (c : Conf) (e : Option Entry)", "stGetCheck s t h c e", False, True),
 ("stGetMetric", "(cfg : Cfg) (s : State) (t : Tid) (h : Hash) (c : Conf) (r : Option Val)", "stGetMetric cfg s t h c r", False, True),
 ("stTtlRead", "(s : State) (t : Tid) (h : Hash) (c : Conf)", "stTtlRead s t h c", False, True),
 ("stTtlCheck", "(s : State) (t : Tid) (h : Hash) (c : Conf) (e : Option Entry)", "stTtlCheck s t h c e", False, True),
 ("stTtlExp", "(s : State) (t : Tid) (h : Hash) (c : Conf)", "stTtlExp s t h c", False, True),
 ("stTtlNow", "(s : State) (t : Tid) (h : Hash) (c : Conf) (exp : Time)", "stTtlNow s t h c exp", False, True),
 ("stTtlUntil", "(s : State) (t : Tid) (h : Hash) (c : Conf) (exp : Time)", "stTtlUntil s t h c exp", False, True),
 ("stIterStart", "(s : State) (t : Tid) (n : Nat)", "stIterStart s t n", False, True),
 ("stIterShard", "(s : State) (t : Tid) (k n : Nat) (seen : List Val) (ch : Choice)", "stIterShard s t k n seen ch", True, True),
 ("stClrStart", "(s : State) (t : Tid) (closing : Bool)", "stClrStart s t closing", False, True),
 ("stClrDrain", "(s : State) (t : Tid) (closing : Bool)", "stClrDrain s t closing", False, False),
 ("stClrPolicy", "(s : State) (t : Tid) (closing : Bool)", "stClrPolicy s t closing", False, True),
 ("stClrShard", "(s : State) (t : Tid) (closing : Bool) (k : Nat) (ch : Choice)", "stClrShard s t closing k ch", True, True),
 ("stClrEm", "(s : State) (t : Tid) (closing : Bool)", "stClrEm s t closing", False, True),
 ("stClrMetrics", "(cfg : Cfg) (s : State) (t : Tid) (closing : Bool)", "stClrMetrics cfg s t closing", False, True),
 ("stClrRestart", "(s : State) (t : Tid) (closing : Bool)", "stClrRestart s t closing", False, True),
 ("stClsFinish", "(s : State) (t : Tid)", "stClsFinish s t", False, True),
 ("stUpdMax", "(s : State) (t : Tid) (m : Int)", "stUpdMax s t m", False, True),
 ("stReadMax", "(s : State) (t : Tid)", "stReadMax s t", False, True),
 ("stReadRem", "(s : State) (t : Tid)", "stReadRem s t", False, True),
 ("spawnStep", "(s : State) (t : Tid) (c : Call)", "spawnStep s t c", True, True),
 # applier
 ("apSelItem", "(s : State)", "apSelItem s", True, False),
 ("apSelStop", "(s : State) (t : Tid)", "apSelStop s t", True, True),
 ("apMarker", "(s : State) (id : Nat)", "apMarker s id", False, False),
 ("apItem", "(cfg : Cfg) (s : State) (i : Item)", "apItem cfg s i", False, False),
 ("apCostedNew", "(cfg : Cfg) (s : State) (i : Item) (ch : Choice)", "apCostedNew cfg s i ch", True, False),
 ("apCostedUpd", "(cfg : Cfg) (s : State) (i : Item)", "apCostedUpd cfg s i", False, False),
 ("apCostedDel", "(cfg : Cfg) (s : State) (i : Item)", "apCostedDel cfg s i", False, False),
 ("apAdded", "(cfg : Cfg) (s : State) (i : Item) (victims : List (Hash × Int)) (ok : Bool)", "apAdded cfg s i victims ok", False, False),
 ("apVictims", "(s : State) (vs : List (Hash × Int))", "apVictims s vs", True, False),
 ("apVictimEvict", "(s : State) (h : Hash) (cost : Int) (c : Conf) (v : Val) (rest : List (Hash × Int))", "apVictimEvict s h cost c v rest", False, False),
 ("apTombPolicy", "(s : State) (i : Item)", "apTombPolicy s i", False, False),
 ("apTombStore", "(s : State) (v : Val)", "apTombStore s v", False, False),
 ("apTick", "(s : State)", "apTick s", False, False),
 ("apSweep", "(s : State) (now : Time) (bs : List (AMap Hash Conf)) (ch : Choice)", "apSweep s now bs ch", True, False),
 ("apSwKey", "(s : State) (now : Time) (k : Hash) (c : Conf) (bs : List (AMap Hash Conf))", "apSwKey s now k c bs", False, False),
 ("apSwStoreDel", "(cfg : Cfg) (s : State) (now : Time) (k : Hash) (c : Conf) (expr : Time) (v : Val) (bs : List (AMap Hash Conf))", "apSwStoreDel cfg s now k c expr v bs", False, False),
 ("apSwPolDel", "(s : State) (now : Time) (k : Hash) (c : Conf) (cost : Int) (v : Val) (bs : List (AMap Hash Conf))", "apSwPolDel s now k c cost v bs", False, False),
 ("doneStep", "(s : State) (t : Tid)", "doneStep s t", True, True),
]
TAC = "(unfold %s; (repeat' split)) <;> (first | rfl | (simp_all; done) | (simp_all [sendBlocking, recvBuf, needNone]; (repeat' split) <;> simp_all; done))"
def lemma(name, binders, app, opt, field):
    if opt:
        return ("theorem %s_%s %s {s' : State} (hstep : %s = some s') : s'.%s = s.%s := by\n  revert hstep; %s\n"
                % (name, field, binders, app, field, field, TAC % name)).replace("(simp_all; done)", "(intro h; simp_all; done)").replace("(simp_all [sendBlocking, recvBuf, needNone]; (repeat' split) <;> simp_all; done)", "(intro h; simp_all [sendBlocking, recvBuf, needNone]; (repeat' split at h) <;> simp_all; done)").replace("first | rfl |", "first | (intro h; cases h; rfl) |")
    return "@[simp] theorem %s_%s %s : (%s).%s = s.%s := by\n  %s\n" % (name, field, binders, app, field, field, TAC % name)
def lemma_cl(name, binders, app, opt):
    if opt:
        return ("theorem %s_cl_ne %s {s' : State} (hstep : %s = some s') {t' : Tid} (hne : t' ≠ t) : s'.cl t' = s.cl t' := by\n  revert hstep; (unfold %s; (repeat' split)) <;> (intro h; first | (simp_all [setCl_cl_ne]; done) | (cases h; simp [setCl, hne]; done) | (simp_all [setCl, hne]; done))\n" % (name, binders, app, name))
    return ("theorem %s_cl_ne %s {t' : Tid} (hne : t' ≠ t) : (%s).cl t' = s.cl t' := by\n  (unfold %s; (repeat' split)) <;> (first | (simp_all [setCl_cl_ne, sendBlocking]; done) | (simp [setCl, sendBlocking, hne]; (repeat' split) <;> simp [hne]; done))\n" % (name, binders, app, name))
cands = []
for (name, b, a, opt, hastid) in steps:
    for f in fields:
        cands.append(("%s_%s" % (name, f), lemma(name, b, a, opt, f)))
    if hastid:
        cands.append(("%s_cl_ne" % name, lemma_cl(name, b, a, opt)))
        # the step leaves its own thread outside the stop/done handshake
        if opt:
            cands.append(("%s_inactive" % name, "theorem %s_inactive %s {s' : State} (hstep : %s = some s') : (s'.cl t).active = false := by\n  revert hstep; (unfold %s; (repeat' split)) <;> (intro h; first | (cases h; simp [CPc.active, CPc.busy, CPc.waitingDone]; done) | (simp_all [CPc.active, CPc.busy, CPc.waitingDone]; done) | (simp at h; done))\n" % (name, b, a, name)))
        else:
            cands.append(("%s_inactive" % name, "theorem %s_inactive %s : ((%s).cl t).active = false := by\n  (unfold %s; (repeat' split)) <;> (first | (simp [CPc.active, CPc.busy, CPc.waitingDone]; done) | (simp [sendBlocking, CPc.active, CPc.busy, CPc.waitingDone]; (repeat' split) <;> simp [CPc.active, CPc.busy, CPc.waitingDone]; done))\n" % (name, b, a, name)))
    else:
        cands.append(("%s_cl" % name, lemma(name, b, a, opt, "cl")))
header = """import RV.Proofs.CacheBasic
/-!
GENERATED by tools/gen_frames.py — frame lemmas of the Cache model: "step function X leaves
field F unchanged" for every pair (X, F) for which that is true (each lemma is checked by
Lean; pairs that are absent are steps that write the field).  Regenerate after changing the model.
-/
set_option linter.unusedVariables false
set_option linter.unusedSimpArgs false
namespace RV.Cache

"""
out = os.path.join("RV", "Proofs", "CacheFrames.lean")
keep = list(cands)
for it in range(6):
    src = header + "\n".join(l for (_, l) in keep) + "\nend RV.Cache\n"
    open(out, "w").write(src)
    p = subprocess.run(["lake", "env", "lean", out], capture_output=True, text=True)
    errs = set(int(m.group(1)) for m in re.finditer(r":(\d+):\d+: error", p.stdout + p.stderr))
    if not errs:
        print("ok: %d lemmas kept of %d" % (len(keep), len(cands)))
        break
    # map error lines to lemma indices
    lines = src.split("\n")
    starts = []
    pos = header.count("\n")
    bad = set()
    idx_of_line = {}
    ln = pos + 1
    for i, (_, l) in enumerate(keep):
        n = l.count("\n") + 1
        for k in range(n):
            idx_of_line[ln + k] = i
        ln += n
    for e in errs:
        if e in idx_of_line:
            bad.add(idx_of_line[e])
    print("iteration %d: dropping %d of %d" % (it, len(bad), len(keep)))
    keep = [x for i, x in enumerate(keep) if i not in bad]
    if not bad:
        print(p.stdout[-2000:]); sys.exit(1)
