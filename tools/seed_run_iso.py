#!/usr/bin/env python3
"""Runs checks against a seeded change WITHOUT touching /repo: the patch is applied in a scratch
worktree of /repo's HEAD (plus /repo's untracked hook files), and ./check runs in isolated mode
(VERIF_REPO=<worktree>, VERIF_ISOLATED=<id>: private lean mirror, harness copy, binaries, evidence).
Several such runs can go in parallel.  Records the outcome in <root>/<id>/detection.json like
seed_run.py.   usage: seed_run_iso.py <id> Cxx [Cyy ...] [--tier T] [--root DIR]"""
import json, os, re, shutil, subprocess, sys, time
args = sys.argv[1:]
tier = "quick"
if "--tier" in args:
    i = args.index("--tier"); tier = args[i + 1]; del args[i:i + 2]
root = "/verif/seeded"
if "--root" in args:
    i = args.index("--root"); root = args[i + 1]; del args[i:i + 2]
sid, props = args[0], args[1:]
d = os.path.join(root, sid)
wt = "/tmp/mutwt/iso_" + sid
tag = re.sub(r"[^A-Za-z0-9]", "", sid)
os.makedirs("/tmp/mutwt", exist_ok=True)
subprocess.run(["git", "-C", "/repo", "worktree", "remove", "--force", wt], capture_output=True)
subprocess.run(["git", "-C", "/repo", "worktree", "add", "-q", "--detach", wt, "HEAD"], check=True)
out = {}
try:
    for f in subprocess.run(["git", "-C", "/repo", "ls-files", "--others", "--exclude-standard"], capture_output=True, text=True).stdout.split():
        os.makedirs(os.path.dirname(os.path.join(wt, f)) or wt, exist_ok=True)
        shutil.copy(os.path.join("/repo", f), os.path.join(wt, f))
    subprocess.run(["git", "-C", wt, "apply", os.path.join(d, "patch.diff")], check=True)
    for p in props:
        t0 = time.time()
        r = subprocess.run(["./check", p, "--tier", tier], cwd="/verif", capture_output=True, text=True,
                           env=dict(os.environ, VERIF_REPO=wt, VERIF_ISOLATED=tag))
        lines = [l for l in r.stdout.splitlines() if l.startswith(("VIOLATION", "OK ", "KNOWN-FINDING", "  what", "  broken"))]
        out[p] = {"exit": r.returncode, "lines": lines, "wall_s": round(time.time() - t0, 1),
                  "caught": any(l.startswith("VIOLATION") for l in lines),
                  "with_failing_input": any(l.startswith("VIOLATION") and "no-failing-input-found" not in l for l in lines),
                  "mode": "isolated worktree"}
        print(sid, p, out[p]["exit"], *lines[-4:], sep="\n   ")
finally:
    subprocess.run(["git", "-C", "/repo", "worktree", "remove", "--force", wt], capture_output=True)
    for x in ("mutlean_", "harness_", "bin_", "mut_evidence_"):
        shutil.rmtree("/verif/.work/" + x + tag, ignore_errors=True)
    try:
        os.remove("/verif/.work/lake_%s.lock" % tag)
    except OSError:
        pass
prev = {}
pth = os.path.join(d, "detection.json")
if os.path.exists(pth):
    prev = json.load(open(pth))
prev.update(out)
json.dump(prev, open(pth, "w"), indent=1)
