#!/usr/bin/env python3
"""Prints the markdown table of seeded changes and which checks caught them (from /verif/seeded)."""
import glob, json, os
rows = []
for d in sorted(glob.glob("/verif/seeded/*/")):
    sid = os.path.basename(d.rstrip("/"))
    meta = json.load(open(d + "meta.json"))
    det = json.load(open(d + "detection.json")) if os.path.exists(d + "detection.json") else {}
    res = []
    for p, r in sorted(det.items()):
        if r.get("caught"):
            res.append("%s: **caught** (%s)" % (p, "concrete failing input" if r.get("with_failing_input") else "no-failing-input-found"))
        else:
            res.append("%s: missed" % p)
    summ = meta.get("summary", "").replace("|", "/").replace("\n", " ")
    if len(summ) > 260:
        summ = summ[:257] + "…"
    rows.append("| %s | %s | %s | %s |" % (sid, meta.get("property", ""), summ, "; ".join(res) or "not run yet"))
print("| id | property | change | result of `./check` with the change applied |\n|---|---|---|---|")
print("\n".join(rows))
